"""Generic per-property check: build + proof audit + correspondence (model vs implementation) + direct oracle."""
import collections
import importlib
import json
import os
import sys
import time

from lib import (IMPLDRV, IMPLDRV_REL, MODELDRV, TRUSTED_BASE, Rng, audit_ok, build_all, load_known, proof_audit,
                 run_driver, write_evidence, write_replay)


def run_property(pid, tier, seed, replay=None):
    t0 = time.time()
    mod = importlib.import_module("p" + pid)
    lines_out = []

    def say(s):
        print(s, flush=True)

    builds = build_all(release=(tier == "thorough" and getattr(mod, "RELEASE_TOO", False)))
    violations = []  # (message, replay_path, has_input)
    known, _fixed = load_known()
    known = [k for k in known if k["property"] == pid]
    known_seen = collections.OrderedDict()

    # ---- 1. proofs
    audit = proof_audit(pid)
    coq_ok = builds["coq"][0]
    proofs_ok = coq_ok and audit_ok(audit)
    if not builds["harness"][0]:
        # the implementation no longer builds against the harness: nothing can be run
        path = write_replay(pid, "harness_build.json", {"what": "harness build failed", "log": builds["harness"][1][-3000:]})
        say("harness build failed:\n" + builds["harness"][1][-2000:])
        violations.append(("harness does not build against /repo", path, False))
    impldrv = builds.get("impldrv", IMPLDRV)
    table_ok = builds.get("table_hook", (True, ""))[0]
    if builds["harness"][0] and not table_ok and getattr(mod, "USES_TABLE", False):
        # the hook that exposes the compression table no longer compiles against /repo: the table is not (any more) the map from
        # label suffixes to offsets that the model - and the theorems about it - describe; the other slices still run
        path = write_replay(pid, "table_hook.json", {"what": "the compression-table hook (cfg simple_dns_verif_table) does not compile against /repo",
                                                      "theorems": ["C07_table_sound_throughout", "C03_transparent"],
                                                      "log": builds["table_hook"][1][-3000:]})
        violations.append(("the compression-table hook does not compile against /repo", path, False))
    if not builds["modeldrv"][0]:
        path = write_replay(pid, "modeldrv_build.json", {"what": "modeldrv build failed", "log": builds["modeldrv"][1][-3000:]})
        violations.append(("model driver does not build", path, False))

    # ---- 2. cases
    rng = Rng(seed)
    if replay:
        payload = json.load(open(replay))
        cases = payload.get("cases") or [payload["case"]]
    else:
        cases = mod.cases(rng, tier)
    evaluations = len(cases)
    model_out = impl_out = None
    disagreements = []
    oracle_failures = []
    dist = collections.Counter()
    distinct = set()
    samples = []
    model_timeouts = 0
    if builds["harness"][0] and builds["modeldrv"][0]:
        timeout = getattr(mod, "CASE_TIMEOUT", 600)
        import lib as _lib
        _lib.ENV["IMPLDRV_CASE_SECS"] = str(getattr(mod, "CASE_SECS", 5))
        _lib.ENV["IMPLDRV_STACK_KB"] = str(getattr(mod, "STACK_KB", 2048))
        per_shard = getattr(mod, "PER_SHARD", 100)
        impl_out = run_driver(impldrv, cases, timeout=timeout, per_shard=per_shard)
        # the list-based model can be too slow on a pathological input; a model-side timeout says nothing about the code:
        # such a case is not compared (it is counted in the evidence) but the direct oracle still sees the implementation's output
        model_out = run_driver(MODELDRV, cases, timeout=max(timeout, 300), per_shard=per_shard, hang_token="MODEL-TIMEOUT")
        rel_out = None
        if tier == "thorough" and getattr(mod, "RELEASE_TOO", False):
            rel_out = run_driver(IMPLDRV_REL, cases, timeout=timeout)
        for idx, (c, m, i) in enumerate(zip(cases, model_out, impl_out)):
            if i in ("NOTRUN", "NOTABLE"):
                continue
            nm, ni = mod.normalize(c, m), mod.normalize(c, i)
            dist[mod.classify(c, i)] += 1
            if mod.nontrivial(c, i):
                distinct.add(ni if len(ni) < 200 else hash(ni))
            if m in ("MODEL-TIMEOUT", "NOTRUN"):
                model_timeouts += 1
            elif nm != ni:
                disagreements.append((c, m, i))
            if rel_out is not None and mod.normalize(c, rel_out[idx]) != ni:
                disagreements.append((c, "release:" + rel_out[idx], i))
            f = mod.oracle(c, i)
            if f:
                oracle_failures.append((c, i, f))
            if len(samples) < 6 and mod.nontrivial(c, i) and idx % max(1, len(cases) // 6) == 0:
                samples.append({"case": c[:300], "model": m[:300], "impl": i[:300]})
        if hasattr(mod, "followups"):
            # second round: implementation-only queries derived from the first-round outputs (metamorphic oracles)
            fu, spans = [], []
            for c, i in zip(cases, impl_out):
                lst = mod.followups(c, i) or []
                spans.append((len(fu), len(lst)))
                fu.extend(lst)
            fu_out = run_driver(impldrv, fu, timeout=timeout) if fu else []
            evaluations += len(fu)
            for (c, i, (a, n)) in zip(cases, impl_out, spans):
                if n:
                    f = mod.oracle2(c, i, fu[a:a + n], fu_out[a:a + n])
                    if f:
                        oracle_failures.append((c, i, f))
        if not samples and cases:
            samples.append({"case": cases[0][:300], "model": model_out[0][:300], "impl": impl_out[0][:300]})

    # ---- 3. verdicts
    def is_known(case, out, failure):
        for k in known:
            if mod.matches_known(k["key"], case, out, failure):
                known_seen[k["key"]] = k["what"]
                return True
        return False

    reported = set()
    for (c, i, f) in oracle_failures:
        if is_known(c, i, f):
            continue
        if len(violations) < 5:
            path = write_replay(pid, "oracle_%d.json" % len(violations),
                                {"property": pid, "case": c, "observed": i, "failure": f,
                                 "replay_cmd": "./check %s --replay <this file>" % pid})
            violations.append((f, path, True))
        reported.add(c)
    for (c, m, i) in disagreements:
        if c in reported:
            continue
        # the model (proved to satisfy the property) and the code differ on c: search c and its neighbourhood
        # for an input on which the property itself fails
        found = None
        neigh = [c] + list(getattr(mod, "neighbours", lambda c: [])(c))[:200]
        nout = run_driver(impldrv, neigh, timeout=getattr(mod, "CASE_TIMEOUT", 600)) if neigh else []
        for (nc, no) in zip(neigh, nout):
            f = mod.oracle(nc, no)
            if f and not is_known(nc, no, f):
                found = (nc, no, f)
                break
        if is_known(c, i, "disagreement"):
            continue
        if len(violations) < 5:
            if found:
                path = write_replay(pid, "disagree_%d.json" % len(violations),
                                    {"property": pid, "case": found[0], "observed": found[1], "failure": found[2],
                                     "disagreement": {"case": c, "model": m, "impl": i}})
                violations.append((found[2], path, True))
            else:
                path = write_replay(pid, "disagree_%d.json" % len(violations),
                                    {"property": pid, "correspondence_slice": getattr(mod, "SLICE", pid),
                                     "case": c, "model": m, "impl": i,
                                     "what": "model and implementation differ; the direct oracle found no input on which the property itself fails"})
                violations.append(("correspondence broken on: " + c[:120], path, False))
        reported.add(c)
    if not proofs_ok:
        why = {"coq_build_ok": coq_ok, "compiled": audit["compiled"], "forbidden": audit["forbidden"][:5],
               "open_assumptions": audit["open"][:5], "theorems": audit["theorems"],
               "closed": audit["closed"], "log": (builds["coq"][1][-1500:] if not coq_ok else audit["log"][-1500:])}
        path = write_replay(pid, "proof.json", {"property": pid, "what": "proof obligations no longer check", "detail": why})
        has_input = any(v[2] for v in violations)
        if not has_input:
            violations.append(("theorems of props/%s.v do not check" % pid, path, False))

    # ---- 4. evidence + output
    for k, what in known_seen.items():
        say("KNOWN-FINDING: property=%s %s [%s]" % (pid, what, k))
    for (msg, path, has_input) in violations:
        say(("VIOLATION property=%s replay=%s" % (pid, path)) + ("" if has_input else " no-failing-input-found"))
    n_thm = len(audit["theorems"])
    coverage = {
        "obligations": max(1, n_thm),
        "discharged": n_thm if proofs_ok else 0,
        "checker_cmd": "make -C coq (full .vo) && coqc props/%s.v with Print Assumptions audit + forbidden-vernacular grep" % pid,
        "trusted_base": TRUSTED_BASE + getattr(mod, "EXTRA_TRUST", []),
        "theorems": audit["theorems"],
        "print_assumptions_closed": audit["closed"],
        "evaluations": evaluations,
        "distinct_nontrivial": len(distinct),
        "rule": mod.RULE,
        "samples": samples,
        "exhaustive": bool(getattr(mod, "EXHAUSTIVE", False)),
        "outcome_distribution": dict(dist),
        "disagreements": len(disagreements),
        "model_timeouts_not_compared": model_timeouts,
        "oracle_failures": len(oracle_failures),
        "known_findings_seen": list(known_seen.keys()),
        "cannot_exhibit": getattr(mod, "CANNOT_EXHIBIT", []),
        "correspondence_slice": getattr(mod, "SLICE", pid),
    }
    coverage.update(getattr(mod, "extra_coverage", lambda: {})())
    write_evidence(pid, tier, seed, coverage, time.time() - t0, len(violations),
                   getattr(mod, "ASSUMPTIONS", []) + ["Rust std / bitflags / radix_trie semantics as described in DESIGN.md section 8"])
    say("%s %s: theorems=%d proofs_ok=%s cases=%d distinct=%d disagreements=%d oracle_failures=%d known=%d wall=%.1fs"
        % (pid, tier, n_thm, proofs_ok, evaluations, len(distinct), len(disagreements), len(oracle_failures),
           len(known_seen), time.time() - t0))
    return 1 if violations else 0
