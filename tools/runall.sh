#!/bin/bash
# runall.sh [tier]: runs every registered check on the current /repo tree and prints one summary line per property.
cd /verif
T=${1:-quick}
for i in $(seq -w 1 20); do
  out=$(timeout 7200 ./check C$i --tier $T 2>&1); code=$?
  echo "C$i exit=$code $(echo "$out" | grep -c '^VIOLATION') viol | $(echo "$out" | tail -1)"
  echo "$out" | grep '^VIOLATION\|^KNOWN' | cut -c1-200
done
