"""C10: each record type's RDATA layout and type code follow its RFC. Independent declarative schema + reference encoder (dns.py)."""
import glob
import os
import dns

SLICE = "RR (ResourceRecord::parse of reference-encoded records and of the repository's third-party sample vectors), RT P (serialise then parse)"
RULE = ("for each of the 40 typed variants: seeded field-value tuples of the declarative RFC schema (boundary integers, empty / "
        "maximal strings, binary names), encoded by the python reference encoder and parsed by the library; the same values built "
        "through the public constructors and serialised; the 30+ zonefile sample vectors of the repository; structural-rule "
        "violations (LOC version != 0, SVCB keys not strictly increasing, NSEC windows not increasing, inner lengths overrunning "
        "the RDATA); every one- and two-byte integer field of every type swept (all 256 values; 0..1023, the top 256 and the powers "
        "of two with their neighbours for 16-bit fields) with and without trailing data, decoded and built. non-trivial = record decodes; distinct = distinct canonical outputs")
INFO = {}


def rr_wire(owner, tcode, cls, ttl, rdata):
    return dns.enc_name(owner) + tcode.to_bytes(2, "big") + cls.to_bytes(2, "big") + ttl.to_bytes(4, "big") + len(rdata).to_bytes(2, "big") + rdata


def cases(rng, tier):
    out = []
    per = 60 if tier == "quick" else 600
    for tname in dns.TYPED:
        code = dns.SCHEMA[tname][0]
        for k in range(per):
            vals = dns.gen_typed_vals(rng, tname, [[b"example", b"com"]])
            rd = dns.enc_rdata_ref(tname, vals)
            if len(rd) == 0:
                continue
            owner = dns.gen_name(rng, None, 3)
            cls, ttl = rng.choice(dns.CLASSES), dns.gen_int(rng, 4)
            pre = rng.bytes(rng.choice([0, 0, 3, 12]))
            c = "RR %s %x" % ((pre + rr_wire(owner, code, cls, ttl, rd)).hex(), len(pre))
            INFO[c] = ("dec", tname, vals, owner, cls, ttl, len(pre) + len(rr_wire(owner, code, cls, ttl, rd)))
            out.append(c)
            # build side: the same values through the constructors
            p = {"id": k, "opcode": 0, "rcode": 0, "flags": 0, "opt": None, "qs": [], "ans": [
                {"name": owner, "class": cls, "ttl": ttl, "cf": False, "rdata": ("T", tname, vals)}], "nss": [], "adds": []}
            c2 = "RT P " + dns.pkt_text(p)
            INFO[c2] = ("enc", p)
            out.append(c2)
            if k % 4 == 0 and any(v[0] == "N" for v in vals):
                # the same record behind a question and an MX record that share the suffix example.com, written with the
                # compressing writer: only the RFC 1035 types may have their RDATA names replaced by pointers
                pc = {"id": k, "opcode": 0, "rcode": 0, "flags": 0x8000, "opt": None,
                      "qs": [{"name": [b"example", b"com"], "qtype": 255, "qclass": 1, "uni": False}],
                      "ans": [{"name": [b"mx", b"example", b"com"], "class": 1, "ttl": 1, "cf": False, "rdata": ("T", "MX", [("I", 1), ("N", [b"example", b"com"])])},
                              {"name": owner, "class": cls, "ttl": ttl, "cf": False, "rdata": ("T", tname, vals)}], "nss": [], "adds": []}
                c6 = "BUILD C " + dns.pkt_text(pc)
                INFO[c6] = ("encc", pc, tname, rd)
                out.append(c6)
            # structural-rule violations
            bad = None
            if tname == "LOC":
                bad = bytes([1 + rng.below(255)]) + rd[1:]
            elif tname in ("SVCB", "HTTPS") and len(vals[2][1]) >= 2:
                its = list(vals[2][1])
                j = rng.below(len(its) - 1)
                its[j], its[j + 1] = (its[j + 1], its[j]) if rng.chance(1, 2) else (its[j], (its[j][0], its[j + 1][1]))
                bad = dns.enc_rdata_ref(tname, [vals[0], vals[1], ("L", its)])
            elif tname == "NSEC" and len(vals[1][1]) >= 2:
                its = list(vals[1][1])
                j = rng.below(len(its) - 1)
                its[j], its[j + 1] = (its[j + 1], its[j]) if rng.chance(1, 2) else (its[j], (its[j][0], its[j + 1][1]))
                bad = dns.enc_rdata_ref(tname, [vals[0], ("L", its)])
            if tname in ("SVCB", "HTTPS") and k % 3 == 0:
                # repeated keys at the ends of the key space
                for keys in ((0, 0), (65535, 65535), (65534, 65535, 65535), (1, 65535, 65535), (65535, 0)):
                    its = [(kk, b"\x01") for kk in keys]
                    c5 = "RR %s 0" % rr_wire(owner, code, cls, ttl, dns.enc_rdata_ref(tname, [vals[0], vals[1], ("L", its)])).hex()
                    INFO[c5] = ("rej", tname, "structural rule")
                    out.append(c5)
            if bad is not None:
                c3 = "RR %s 0" % rr_wire(owner, code, cls, ttl, bad).hex()
                INFO[c3] = ("rej", tname, "structural rule")
                out.append(c3)
            # an inner length overrunning the RDATA: cut the RDATA short inside its last length-prefixed element
            sch = dns.schema_for(tname, vals)
            if sch and (sch[-1] == "cstr" or (isinstance(sch[-1], tuple) and sch[-1][0] == "items")) and len(rd) >= 2:
                last = vals[-1]
                lastlen = len(last[1]) if last[0] == "B" else (len(last[1][-1][1]) if last[1] else 0)
                if lastlen >= 1:
                    cut = rd[:-1]
                    c4 = "RR %s 0" % rr_wire(owner, code, cls, ttl, cut).hex()
                    INFO[c4] = ("rej", tname, "inner length overruns the RDATA")
                    out.append(c4)
    # every one- and two-byte integer field swept (see dns.field_sweeps): decode side and build side
    for n, (tname, vals) in enumerate(dns.field_sweeps(tier)):
        code = dns.SCHEMA[tname][0]
        rd = dns.enc_rdata_ref(tname, vals)
        owner = [b"o"]
        w = rr_wire(owner, code, 1, 60, rd)
        c = "RR %s 0" % w.hex()
        INFO[c] = ("dec", tname, vals, owner, 1, 60, len(w))
        out.append(c)
        p = {"id": n & 0xFFFF, "opcode": 0, "rcode": 0, "flags": 0, "opt": None, "qs": [], "ans": [
            {"name": owner, "class": 1, "ttl": 60, "cf": False, "rdata": ("T", tname, vals)}], "nss": [], "adds": []}
        c2 = "RT P " + dns.pkt_text(p)
        INFO[c2] = ("enc", p)
        out.append(c2)
    # OPT (RFC 6891): fixed part in the RR header, options in the RDATA; the record may be followed by other bytes
    for k in range(per):
        vals = dns.gen_typed_vals(rng, "OPT", None)
        rd = dns.enc_rdata_ref("OPT", vals)
        ttl = (vals[1][1] << 16) | (rng.below(256) << 24)
        wire = b"\x00" + (41).to_bytes(2, "big") + vals[0][1].to_bytes(2, "big") + ttl.to_bytes(4, "big") + len(rd).to_bytes(2, "big") + rd
        trail = rng.bytes(rng.choice([0, 4, 9]))
        c = "RR %s 0" % (wire + trail).hex()
        INFO[c] = ("dec", "OPT", vals, [], 1, ttl, len(wire))
        out.append(c)
        if vals[2][1] and len(vals[2][1][-1][1]) >= 1:
            # last option claims more data than the RDATA holds; the missing bytes are present after the record
            cut = len(wire) - 1 - rng.below(len(vals[2][1][-1][1]))
            bad = wire[:9] + (cut - 11).to_bytes(2, "big") + wire[11:cut] + rng.bytes(12)
            c = "RR %s 0" % bad.hex()
            INFO[c] = ("rej", "OPT", "option length overrunning the RDATA")
            out.append(c)
    # RFC forms the public structs cannot hold (known findings F25, F30)
    for k in range(3):
        addr = dns.gen_cstr(rng)[:30] or b"150862028003217"
        c = "RR %s 0" % rr_wire([b"isdn", b"example"], 20, 1, 60, bytes([len(addr)]) + addr).hex()
        INFO[c] = ("rfcform", "isdn-optional-sa", "ISDN RDATA with the optional <sa> omitted (RFC 1183 3.2)")
        out.append(c)
        n = rng.choice([1, 7, 13, 19])
        c = "RR %s 0" % rr_wire([b"nsap", b"example"], 22, 1, 60, b"\x47" + rng.bytes(n - 1)).hex()
        INFO[c] = ("rfcform", "nsap-fixed-20", "NSAP RDATA of %d octets (RFC 1706 5: variable length)" % n)
        out.append(c)
    for path in sorted(glob.glob("/repo/simple-dns/samples/zonefile/*.sample")):
        d = open(path, "rb").read()
        c = "RR %s 0" % d.hex()
        INFO[c] = ("sample", os.path.basename(path), d)
        out.append(c)
    return out


def normalize(case, out):
    return "ERR" if out.startswith("ERR") else out


def classify(case, out):
    k = INFO.get(case, ("?",))[0]
    return k + ":" + out.split(" ")[0]


def nontrivial(case, out):
    return out.startswith("OK")


def oracle(case, out):
    info = INFO.get(case)
    if info is None:
        return None
    if out.startswith("PANIC") or out in ("HANG", "CRASH"):
        return "%s on %s" % (out, case[:200])
    if info[0] == "dec":
        _, tname, vals, owner, cls, ttl, end = info
        want = "OK " + " ".join(dns.rr_toks({"name": owner, "class": cls, "ttl": ttl, "cf": False, "rdata": ("T", tname, vals)}) + ["%x" % end])
        if out != want:
            return "%s: parsing the RFC encoding gives %r, the RFC field values are %r" % (tname, out[:400], want[:400])
    elif info[0] == "enc":
        p = info[1]
        if not out.startswith("OK "):
            return "serialising failed: %r" % out[:200]
        hx = out[3:].split(" | ")[0]
        ref = dns.enc_packet_ref(p)
        if bytes.fromhex(hx) != ref:
            return "%s: serialised bytes %s differ from the RFC encoding %s" % (p["ans"][0]["rdata"][1], hx[:300], ref.hex()[:300])
    elif info[0] == "encc":
        pc, tname, rd = info[1], info[2], info[3]
        if not out.startswith("OK "):
            return "compressed serialising failed: %r" % out[:200]
        msg = bytes.fromhex(out[3:].split()[0])
        w = dns.walk(msg)
        if w is None or len(w["secs"][0]) != 2:
            return "%s: the compressed output is not a well-framed message" % tname
        r = w["secs"][0][1]
        got = msg[r["rdata_at"]:r["rdata_at"] + r["rdlen"]]
        if tname not in ("NS", "MD", "MF", "CNAME", "SOA", "MB", "MG", "MR", "PTR", "MINFO", "MX", "RP", "AFSDB", "RT", "RouteThrough", "NSAP_PTR") and got != rd:
            return "%s: RDATA written by the compressing writer %s differs from the RFC encoding %s (names of this type are never compressed)" % (tname, got.hex()[:200], rd.hex()[:200])
    elif info[0] == "rej":
        if not out.startswith("ERR"):
            return "%s with a broken %s was accepted: %r" % (info[1], info[2], out[:300])
    elif info[0] == "rfcform":
        if not out.startswith("OK"):
            return "%s is valid per its RFC but was rejected: %r [%s]" % (info[2], out, info[1])
    elif info[0] == "sample":
        if not out.startswith("OK "):
            return "third-party sample %s rejected: %r" % (info[1], out)
        r = dns.TokReader(out[3:].split())
        rr = r.rr()
        end = r.num()
        d = info[2]
        if end != len(d):
            return "sample %s: parser stopped at %d of %d bytes" % (info[1], end, len(d))
        w = dns.walk(b"\x00" * 6 + b"\x00\x01" + b"\x00" * 4 + d) if False else None
        if rr["rdata"][0] == "T":
            # re-encode the parsed fields with the reference encoder: must reproduce the sample RDATA when it holds no pointers
            tname, vals = rr["rdata"][1], rr["rdata"][2]
            try:
                rd = dns.enc_rdata_ref(tname, vals)
            except Exception as e:  # value outside the schema: the parser produced something the RFC layout cannot hold
                return "sample %s: parsed fields do not fit the RFC schema (%s)" % (info[1], e)
            head = dns.enc_name(rr["name"])
            if d[len(head) + 10:] != rd and b"\xc0" not in d[len(head) + 10:]:
                return "sample %s: re-encoding the parsed fields gives %s, the sample RDATA is %s" % (info[1], rd.hex(), d[len(head) + 10:].hex())
    return None


def matches_known(key, case, out, failure):
    info = INFO.get(case)
    return bool(info) and info[0] == "rfcform" and info[1] == key and out.startswith("ERR")
