"""C15: advertised service instances are discovered faithfully."""
import dns

SLICE = "STORE/D (wire announcements with the addresses in the additional section through the listener loop body, then get_known_services), DISC (InstanceInformation::into_records -> compressed packet -> Packet::parse -> discovery ingest -> get_known_services), ESCAPE"
RULE = ("seeded instance descriptions: valid single-label names (letters, digits, inner hyphens / underscores, leading underscore, "
        "63-byte labels), 0..3 IPv4/IPv6 addresses, 0..3 ports, attribute maps with '='-free keys and absent / empty / non-empty "
        "values (including the empty map); sequences of announcements from several peers, the discoverer's own instance, other "
        "services and names that are not strict subdomains of the watched service; the same as wire datagrams with records split between the answer and additional sections, including the discoverer's own looped-back announcement; all strings <= 5 over {a . \\ e-acute} plus seeded "
        "ones for escape / unescape. Oracle: the reported set equals the advertised one. non-trivial = an instance is reported")
CANNOT_EXHIBIT = ["sockets and threads; the tokio listener's copy of add_response_to_resources is driven next to the sync one (outputs must be identical)"]
INFO = {}
NAMES = ["a", "b", "inst1", "my-inst", "_x", "a_b", "Z9", "x" * 63, "me"]
BADNAMES = ["a.b", "a b", "-a", "a-", "é", "", "a\\b", "x" * 64]


def gen_peer(rng, svc):
    r = rng.below(10)
    name = rng.choice(NAMES) if r < 8 else rng.choice(BADNAMES)
    psvc = svc if rng.chance(5, 6) else rng.choice(["_other._tcp.local", "_tcp.local", "local", "x." + svc])
    ips = []
    for _ in range(rng.below(4)):
        r = rng.below(9)
        ips.append(("4", 0x0A000000 + rng.below(5)) if r < 5 else ("6", (0xFE80 << 112) + rng.below(5)) if r < 8
                   else ("6", (0xFFFF << 32) + 0x0A000000 + rng.below(5)))   # IPv4-mapped IPv6
    ips = list(dict.fromkeys(ips))
    ports = list(dict.fromkeys(rng.choice([80, 8080, 0, 65535, 53]) for _ in range(rng.below(4))))
    attrs = {}
    for _ in range(rng.choice([0, 0, 1, 2, 3])):
        import attrgen
        k = rng.choice(["k", "key", "path", "Ļ", "a b", "x;y"]) if rng.chance(1, 2) else rng.choice(attrgen.WELL_KNOWN_KEYS)
        attrs[k] = rng.choice([None, None, "", "1", "v", "a=b", "é", "x" * 100])
    return {"svc": psvc, "name": name, "ips": ips, "ports": ports, "attrs": attrs}


def peer_toks(p):
    t = [p["svc"].encode().hex(), p["name"].encode().hex() or "-", "%x" % len(p["ips"])]
    for k, a in p["ips"]:
        t += [k, "%x" % a]
    t += ["%x" % len(p["ports"])] + ["%x" % x for x in p["ports"]]
    t += ["%x" % len(p["attrs"])]
    for k, v in p["attrs"].items():
        t += [k.encode().hex()] + (["N"] if v is None else ["V", v.encode().hex() or "-"])
    return t


def cases(rng, tier):
    import itertools
    out = []
    for _ in range(1200 if tier == "quick" else 12000):
        svc = rng.choice(["_srv._tcp.local", "_http._tcp.local", "_a.local"])
        me = "me"
        peers, seen = [], set()
        for _ in range(1 + rng.below(4)):
            p = gen_peer(rng, svc)
            full = p["name"] + "." + p["svc"]
            # one announcement per owner name: two different TXT records under one owner are merged in HashMap
            # iteration order, which neither the model nor the property fixes
            if full in seen:
                # a re-announcement of an instance already announced that changes its data: the same attributes, a superset of
                # the addresses and of the ports (C15_any_batches: records heard before are refreshed, new ones are added)
                prev = next(q for q in peers if q["name"] + "." + q["svc"] == full)
                p = dict(prev, ips=list(dict.fromkeys(prev["ips"] + p["ips"])), ports=list(dict.fromkeys(prev["ports"] + p["ports"])))
            seen.add(full)
            peers.append(p)
        if rng.chance(1, 3):
            if me + "." + svc not in seen:
                peers.append({"svc": svc, "name": me, "ips": [("4", 1)], "ports": [1], "attrs": {}})
        c = "DISC %s %s %x %x %s" % (svc.encode().hex(), me.encode().hex(), 120, len(peers), " ".join(" ".join(peer_toks(p)) for p in peers))
        INFO[c] = (svc, me, peers)
        out.append(c)
    # announcements as they arrive on the wire (SRV / TXT in the answer section, the addresses in the additional section, as
    # `announce` sends them), from peers, from the discoverer's own instance (its looped-back announcement), for the service
    # name itself and for names outside the service, through the listener's loop body; then get_known_services
    import pC13
    for k in range(150 if tier == "quick" else 1500):
        svc = [b"_srv", b"_tcp", b"local"]
        me = [b"me"] + svc
        toks = ["AA"] + dns.rr_toks({"name": svc, "class": 1, "ttl": 120, "cf": False, "rdata": ("T", "PTR", [("N", me)])})
        plan = []
        for _ in range(1 + rng.below(4)):
            kind = rng.choice(["peer", "peer", "own", "service", "foreign"])
            owner = {"peer": [rng.choice([b"p1", b"p2", b"Me", b"me2"])] + svc, "own": me, "service": svc,
                     "foreign": rng.choice([[b"x", b"_other", b"_tcp", b"local"], [b"_tcp", b"local"], [b"me", b"local"]])}[kind]
            addr = {"name": owner, "class": 1, "ttl": 120, "cf": rng.chance(1, 4), "rdata": ("T", "A", [("I", 0xC0A80100 + rng.below(200))])}
            srv = {"name": owner, "class": 1, "ttl": 120, "cf": False, "rdata": ("T", "SRV", [("I", 0), ("I", 0), ("I", 8000 + rng.below(5)), ("N", owner)])}
            txt = {"name": owner, "class": 1, "ttl": 120, "cf": False, "rdata": ("T", "TXT", [("L", [(0, b"k=v")])])}
            pkt = pC13.query_pkt(0, [])
            pkt["flags"] = 0x8400
            layout = rng.below(6)
            own_ptr = {"name": svc, "class": 1, "ttl": 120, "cf": False, "rdata": ("T", "PTR", [("N", me)])}
            if layout == 4:
                # the answer section holds only what the discoverer itself registered (its looped-back PTR, exactly as stored);
                # the peer's records ride in the additional section of the same message
                pkt["ans"], pkt["adds"] = [own_ptr], [srv, txt, addr]
            elif layout == 5:
                pkt["ans"], pkt["adds"] = [own_ptr, dict(own_ptr, ttl=4500)], [addr, srv, txt]
            elif layout == 0:
                pkt["ans"], pkt["adds"] = [srv, txt], [addr]
            elif layout == 1:
                pkt["ans"], pkt["adds"] = [], [srv, txt, addr]
            elif layout == 2:
                pkt["ans"], pkt["adds"] = [addr, srv, txt], []
            else:
                pkt["ans"], pkt["nss"], pkt["adds"] = [txt], [srv], [addr]
            # the envelope a real responder may put around the same records: the question it answers echoed back (legacy
            # unicast responders and stacks that copy the query), a non-zero id, EDNS data, other header flags
            if rng.chance(1, 3):
                pkt["qs"] = [{"name": rng.choice([svc, owner]), "qtype": rng.choice([12, 255, 33]), "qclass": 1, "uni": rng.chance(1, 4)}]
            if rng.chance(1, 3):
                pkt["id"] = 1 + rng.below(65535)
            if rng.chance(1, 5):
                pkt["opt"] = {"udp": 1440, "version": 0, "codes": []}
            if rng.chance(1, 4):
                pkt["opcode"] = rng.choice(dns.NAMED_OPCODES)
            if rng.chance(1, 6):
                pkt["rcode"] = rng.choice([1, 2, 3, 5])
            if rng.chance(1, 4):
                pkt["flags"] = 0x8000 | rng.choice([0, 0x0400, 0x0100, 0x0080, 0x0200])
            b, _ = dns.encode_marked(pkt, rng, rng.choice([0, 3]))
            toks += ["D"] + dns.name_toks(svc) + dns.name_toks(me) + [b.hex()]
            plan.append((kind, owner))
        toks += ["K"] + dns.name_toks(svc)
        c = "STORE " + " ".join(toks)
        INFO[c] = ("wire", plan)
        out.append(c)
    # time: an instance first heard of through records carrying the cache-flush bit (a goodbye / conflict-resolution packet as
    # first contact), through ordinary records, and a mix; looked at half a second and one and a half seconds later
    for k in range(6 if tier == "quick" else 24):
        svc = [b"_srv", b"_tcp", b"local"]
        me = [b"me"] + svc
        owner = [b"p%d" % k] + svc
        flush = [(True, True, True), (True, False, False), (False, False, True), (False, False, False), (True, True, False), (False, True, True)][k % 6]
        addr = {"name": owner, "class": 1, "ttl": 120, "cf": flush[0], "rdata": ("T", "A", [("I", 0xC0A80100 + k)])}
        srv = {"name": owner, "class": 1, "ttl": 120, "cf": flush[1], "rdata": ("T", "SRV", [("I", 0), ("I", 0), ("I", 8000 + k), ("N", owner)])}
        txt = {"name": owner, "class": 1, "ttl": 120, "cf": flush[2], "rdata": ("T", "TXT", [("L", [(0, b"k=v")])])}
        pkt = pC13.query_pkt(0, [])
        pkt["flags"] = 0x8400
        pkt["ans"] = [addr, srv, txt]
        b, _ = dns.encode_marked(pkt, rng, 0)
        toks = ["AA"] + dns.rr_toks({"name": svc, "class": 1, "ttl": 120, "cf": False, "rdata": ("T", "PTR", [("N", me)])})
        toks += ["D"] + dns.name_toks(svc) + dns.name_toks(me) + [b.hex()]
        toks += ["T", "1", "K"] + dns.name_toks(svc) + ["T", "2", "K"] + dns.name_toks(svc)
        c = "STORE " + " ".join(toks)
        INFO[c] = ("timed", flush)
        out.append(c)
    for n in range(0, 6 if tier == "quick" else 7):
        for tup in itertools.product(["a", ".", "\\", "é"], repeat=n):
            out.append("ESCAPE " + ("".join(tup).encode().hex() or "-"))
    for _ in range(300):
        s = "".join(rng.choice(["a", ".", "\\", "é", "\\.", "..", "😀"]) for _ in range(rng.below(12)))
        out.append("ESCAPE " + (s.encode().hex() or "-"))
    return out


def normalize(case, out):
    return out


def classify(case, out):
    return case.split(" ")[0]


def nontrivial(case, out):
    return case.startswith("ESCAPE") or not out.endswith("| K 0")


_classify_kind = {"DISC": "DISC", "ESCAPE": "ESCAPE", "STORE": "WIRE"}


def valid_label(name):
    import re
    b = name.encode()
    return len(b) <= 63 and re.match(rb"^([A-Za-z0-9]|[A-Za-z0-9_][A-Za-z0-9_-]*[A-Za-z0-9])$", b) is not None


def inst_tok(p):
    ips = sorted("%s:%x" % (k, a) for k, a in p["ips"])
    ports = sorted("%x" % x for x in p["ports"])
    attrs = sorted(((k.encode(), None if v is None else v.encode()) for k, v in p["attrs"].items()), key=lambda kv: kv[0])
    t = [p["name"].encode().hex(), "%x" % len(ips)] + ips + ["%x" % len(ports)] + ports + ["%x" % len(attrs)]
    for k, v in attrs:
        t += [k.hex()] + (["N"] if v is None else ["V", v.hex() or "-"])
    return " ".join(t)


def oracle(case, out):
    if out.startswith("PANIC") or out in ("HANG", "CRASH"):
        return "%s on %s" % (out, case[:200])
    if case.startswith("ESCAPE"):
        t = case.split()[1]
        s = bytes.fromhex(t) if t != "-" else b""
        esc, back, _ = out.split()
        if back != (s.hex() or "-"):
            return "unescape(escape(%r)) = %s" % (s, back)
        return None
    if INFO[case][0] == "timed":
        # records received with the cache-flush bit live one second, the others their TTL: after 1.5 s the instance is reported
        # iff one of its records came without the bit
        flush = INFO[case][1]
        ks = [x for x in out.split(" | ") if x.startswith("K ")]
        if len(ks) != 2:
            return "discovery run failed: %r" % out[:200]
        if not ks[0].startswith("K 1"):
            return "half a second after its announcement the instance is not reported: %r" % ks[0][:160]
        want = 0 if all(flush) else 1
        if not ks[1].startswith("K %x" % want):
            return ("1.5 s after an announcement whose records carried the cache-flush bit %r (address, SRV, TXT), get_known_services "
                    "reports %r, expected %d instance(s)" % (flush, ks[1][:160], want))
        return None
    if INFO[case][0] == "wire":
        plan = INFO[case][1]
        segs = out.split(" | ")
        dsegs = [x for x in segs if x.startswith("D ")]
        if len(dsegs) != len(plan):
            return "discovery run failed: %r" % out[:200]
        for (kind, owner), seg in zip(plan, dsegs):
            if kind != "peer" and not seg.endswith("ING 0"):
                return "a response about %s (%s) was ingested / reported: %r" % (b".".join(owner).decode(), kind, seg[-120:])
            if kind == "peer" and seg.endswith("ING 0"):
                return "a peer's announcement (%s) was not reported: %r" % (b".".join(owner).decode(), seg[-120:])
        peers = sorted(set(o[0] for k, o in plan if k == "peer"))
        kseg = segs[-1]
        if not kseg.startswith("K %x" % len(peers)):
            return "known services %r, expected the %d peers %r and nothing else" % (kseg[:200], len(peers), peers)
        return None
    svc, me, peers = INFO[case]
    if not out.startswith("OK"):
        return "discovery run failed: %r" % out[:100]
    groups = out.split(" | ")[1:]
    expected = {}
    for p, g in zip(peers, groups):
        entry_ok = all(len(k.encode()) + (0 if v is None else 1 + len(v.encode())) <= 255 for k, v in p["attrs"].items())
        text = p["name"].replace("\\", "\\\\").replace(".", "\\.") + "." + p["svc"]
        full = [x for x in text.split(".") if x]
        full_ok = all(valid_label(x) for x in full) and sum(len(x.encode()) + 1 for x in full) + 1 <= 255
        advertised = full_ok and entry_ok
        svcl = svc.split(".")
        under = len(full) > len(svcl) and full[len(full) - len(svcl):] == svcl
        relevant = advertised and under and full != [me] + svcl
        if not advertised:
            continue
        if relevant:
            p = dict(p, name=".".join(full[:len(full) - len(svcl)]))
            want = "I 1 " + inst_tok(p)
            if g != want:
                return "announcement of %r was reported as %r, expected %r" % (p, g, want)
            # later announcements of the same instance name merge into the same owner: keep the union as the store does
            e = expected.setdefault(p["name"], {"name": p["name"], "ips": [], "ports": [], "attrs": {}})
            for x in p["ips"]:
                if x not in e["ips"]:
                    e["ips"].append(x)
            for x in p["ports"]:
                if x not in e["ports"]:
                    e["ports"].append(x)
            e["attrs"].update(p["attrs"])
        else:
            if g not in ("I 0",):
                return "announcement %r must not be reported (own instance, other service or not a strict subdomain): got %r" % (p, g)
    k = groups[len(peers)]
    multi = any(sum(1 for p in peers if p["name"] == n and p["svc"] == svc) > 1 for n in expected)
    if not multi:
        want = sorted(inst_tok(e) for e in expected.values())
        wantk = "K " + " ".join(["%x" % len(want)] + want)
        if k != wantk:
            return "known services %r, expected %r" % (k, wantk)
    return None


def matches_known(key, case, out, failure):
    return False
