"""Shared machinery of the /verif checks: build, proof audit, driver runs, diff, evidence."""
import fcntl
import hashlib
import json
import os
import re
import subprocess
import sys
import time
from concurrent.futures import ThreadPoolExecutor

VERIF = os.path.dirname(os.path.dirname(os.path.abspath(__file__)))
REPO = "/repo"
BUILD = os.path.join(VERIF, ".build")
WORK = os.path.join(VERIF, ".work")
COQ = os.path.join(VERIF, "coq")
MODELDRV = os.path.join(BUILD, "modeldrv")
IMPLDRV = os.path.join(BUILD, "cargo-target", "debug", "impldrv")
IMPLDRV_REL = os.path.join(BUILD, "cargo-target", "release", "impldrv")
NPROC = 16

ENV = dict(os.environ)
ENV.update({"CARGO_NET_OFFLINE": "true", "GOPROXY": "off", "PIP_NO_INDEX": "1"})
ENV.setdefault("IMPLDRV_CASE_SECS", "5")

ALLOWED_AXIOMS = set()  # every property theorem is expected to be "Closed under the global context"

FORBIDDEN = re.compile(
    r"\b(Admitted|admit|Axiom|Axioms|Parameter|Parameters|Conjecture|Hypothesis|Variable|Variables|Abort All)\b"
    r"|Unset Guard|bypass_check|type-in-type|impredicative-set|Admit Obligations|give_up")

TRUSTED_BASE = [
    "Coq 8.16.1 kernel (coqc); vm_compute used for finite sweeps; no native_compute",
    "no axioms: every property theorem must print 'Closed under the global context' (checked on every run)",
    "hand-written Gallina model of simple-dns / simple-mdns (coq/theories/*.v), tied to /repo by the correspondence check only",
    "extraction with ExtrOcamlBasic only (Extract Inductive bool/option/unit/list/prod/sumbool/sumor; Extract Inlined Constant andb/orb), OCaml 4.13.1, modeldrv/main.ml byte<->char glue",
    "Rust harness /verif/harness (impldrv) built against /repo's working tree with --cfg simple_dns_verif, rustc, std semantics",
    "python case generators and oracles in /verif/tools",
]


def sh(cmd, cwd=None, timeout=1800, check=True, env=None):
    p = subprocess.run(cmd, shell=isinstance(cmd, str), cwd=cwd, timeout=timeout, env=env or ENV,
                       stdout=subprocess.PIPE, stderr=subprocess.STDOUT, text=True, errors="replace")
    if check and p.returncode != 0:
        raise RuntimeError("command failed (%s): %s\n%s" % (p.returncode, cmd, p.stdout[-4000:]))
    return p


class BuildLock:
    def __enter__(self):
        os.makedirs(BUILD, exist_ok=True)
        self.f = open(os.path.join(BUILD, "lock"), "w")
        fcntl.flock(self.f, fcntl.LOCK_EX)
        return self

    def __exit__(self, *a):
        fcntl.flock(self.f, fcntl.LOCK_UN)
        self.f.close()


def build_coq():
    """Full .vo build of the development (no -vos); a no-op when nothing changed."""
    if not os.path.exists(os.path.join(COQ, "Makefile")):
        sh("coq_makefile -f _CoqProject -o Makefile", cwd=COQ)
    p = sh("timeout 1500 make -j%d" % NPROC, cwd=COQ, check=False, timeout=1600)
    return p.returncode == 0, p.stdout


def build_modeldrv():
    src = [os.path.join(COQ, "model.ml"), os.path.join(VERIF, "modeldrv", "main.ml")]
    if os.path.exists(MODELDRV) and all(os.path.getmtime(MODELDRV) >= os.path.getmtime(s) for s in src):
        return True, ""
    p = sh("./build.sh", cwd=os.path.join(VERIF, "modeldrv"), check=False)
    return p.returncode == 0, p.stdout


def build_harness(release=False):
    h = os.path.join(VERIF, "harness")
    lock = os.path.join(h, "Cargo.lock")
    if not os.path.exists(lock):
        sh("cp %s/Cargo.lock %s" % (REPO, lock))
    p = sh("cargo build --offline" + (" --release" if release else ""), cwd=h, check=False, timeout=1200)
    return p.returncode == 0, p.stdout


def build_harness_without_table_hook():
    """Second attempt when the harness does not build: without the compression-table hook (cfg simple_dns_verif_table), which
    depends on the shape of a private data structure. Own target directory, so the two builds do not evict each other."""
    h = os.path.join(VERIF, "harness")
    env = dict(ENV)
    env["RUSTFLAGS"] = "--cfg simple_dns_verif -A unexpected_cfgs"
    env["CARGO_TARGET_DIR"] = os.path.join(BUILD, "cargo-target-notable")
    p = subprocess.run("cargo build --offline", shell=True, cwd=h, env=env, stdout=subprocess.PIPE, stderr=subprocess.STDOUT, text=True, timeout=1200)
    return p.returncode == 0, p.stdout, os.path.join(BUILD, "cargo-target-notable", "debug", "impldrv")


def build_all(release=False):
    with BuildLock():
        ok, out = build_coq()
        coq_ok, coq_out = ok, out
        ok2, out2 = build_modeldrv() if coq_ok or os.path.exists(os.path.join(COQ, "model.ml")) else (False, "no model.ml")
        ok3, out3 = build_harness()
        table = (True, "")
        impldrv = IMPLDRV
        if not ok3:
            ok4, out4, path = build_harness_without_table_hook()
            if ok4:
                table = (False, out3)
                ok3, out3, impldrv = True, out4, path
        if release and ok3 and table[0]:
            ok3, out3 = build_harness(release=True)
    return {"coq": (coq_ok, coq_out), "modeldrv": (ok2, out2), "harness": (ok3, out3), "table_hook": table, "impldrv": impldrv}


def proof_audit(pid):
    """Re-checks props/<pid>.v with coqc, collects Print Assumptions output, greps for forbidden vernacular."""
    res = {"theorems": [], "closed": 0, "open": [], "forbidden": [], "compiled": False, "log": ""}
    for root, _, files in os.walk(COQ):
        for fn in files:
            if fn.endswith(".v"):
                path = os.path.join(root, fn)
                for i, line in enumerate(open(path, errors="replace"), 1):
                    code = re.sub(r"\(\*.*?\*\)", "", line)
                    if FORBIDDEN.search(code):
                        res["forbidden"].append("%s:%d: %s" % (os.path.relpath(path, VERIF), i, line.strip()))
    src = os.path.join(COQ, "props", pid + ".v")
    if not os.path.exists(src):
        res["log"] = "missing " + src
        return res
    text = open(src).read()
    res["theorems"] = re.findall(r"^\s*Theorem\s+(\w+)", text, re.M)
    wd = os.path.join(WORK, pid)
    os.makedirs(wd, exist_ok=True)
    p = sh("timeout 900 coqc -q -Q theories SD -Q props SDP -Q extract SDX -noglob -o %s props/%s.v"
           % (os.path.join(wd, pid + ".vo"), pid), cwd=COQ, check=False, timeout=1000)
    res["log"] = p.stdout[-3000:]
    res["compiled"] = p.returncode == 0
    if not res["compiled"]:
        return res
    # every `Print Assumptions` prints either the closed banner or "Axioms:" followed by names
    blocks = re.split(r"(?=Closed under the global context|Axioms:)", p.stdout)
    for b in blocks:
        if b.startswith("Closed under the global context"):
            res["closed"] += 1
        elif b.startswith("Axioms:"):
            names = re.findall(r"^(\S+)\s*:", b[len("Axioms:"):], re.M)
            bad = [n for n in names if n not in ALLOWED_AXIOMS]
            if bad:
                res["open"].append(bad)
            else:
                res["closed"] += 1
    res["print_assumptions"] = len(re.findall(r"^\s*Print Assumptions", text, re.M))
    return res


def audit_ok(a):
    return (a["compiled"] and not a["forbidden"] and not a["open"] and a["theorems"]
            and a["closed"] == a.get("print_assumptions", -1) and a["closed"] >= len(a["theorems"]))


_ABNORMAL = {"n": 0}
MAX_ABNORMAL = 8
JOB_LINES = 4000          # at most this many cases per driver process


def _big_stack():
    import resource
    try:
        soft, hard = resource.getrlimit(resource.RLIMIT_STACK)
        want = 4 * 1024 * 1024 * 1024
        resource.setrlimit(resource.RLIMIT_STACK, (want if hard == resource.RLIM_INFINITY or hard >= want else hard, hard))
    except (ValueError, OSError):
        pass


def _run_shard(binary, lines, timeout, hang_token="HANG"):
    """Runs one driver process over `lines`. impldrv has a per-case watchdog (prints HANG and exits); a driver that dies
    in the middle of a case yields CRASH for that case; a process that exceeds `timeout` seconds yields `hang_token` for the
    case it was on. After MAX_ABNORMAL such events in one run the remaining cases are NOTRUN."""
    out = []
    i = 0
    while i < len(lines):
        if _ABNORMAL["n"] >= MAX_ABNORMAL:
            out.extend(["NOTRUN"] * (len(lines) - i))
            return out
        chunk = lines[i:]
        # the extracted model is not tail-recursive over byte lists: give it the stack a megabyte-sized message needs
        # (the implementation driver keeps the default; its worker thread has its own, deliberately ordinary, stack)
        pre = _big_stack if binary == MODELDRV else None
        p = subprocess.Popen([binary], stdin=subprocess.PIPE, stdout=subprocess.PIPE, stderr=subprocess.DEVNULL, env=ENV, preexec_fn=pre)
        data = ("\n".join(chunk) + "\n").encode()
        timed_out = False
        try:
            so, _ = p.communicate(data, timeout=timeout)
        except subprocess.TimeoutExpired:
            p.kill()
            so, _ = p.communicate()
            timed_out = True
        text = so.decode(errors="replace")
        got = text.split("\n")
        # only complete lines count: what follows the last newline is a line cut short by the kill / crash
        got.pop()
        got = got[:len(chunk)]
        if len(got) == len(chunk) and not timed_out:
            out.extend(got)
            return out
        _ABNORMAL["n"] += 1
        out.extend(got)
        if got and got[-1] in ("HANG", "CRASH") and not timed_out:
            i += len(got)          # the watchdog already reported the case it stopped on
        else:
            if len(got) < len(chunk):
                out.append(hang_token if timed_out else "CRASH")
            i += len(got) + 1
    return out


def run_driver(binary, lines, timeout=600, shards=NPROC, per_shard=100, hang_token="HANG"):
    """Runs the driver over all lines in jobs of bounded size on up to `shards` processes at a time (so that the per-process
    timeout bounds a bounded amount of work whatever the tier). Lines are dealt to the jobs longest-first (cost grows with
    input size in the list-based model) and the outputs are put back in input order."""
    if not lines:
        return []
    _ABNORMAL["n"] = 0
    njobs = max(1, min(shards, (len(lines) + per_shard - 1) // per_shard))
    njobs = max(njobs, (len(lines) + JOB_LINES - 1) // JOB_LINES)
    order = sorted(range(len(lines)), key=lambda k: -len(lines[k]))
    buckets = [[] for _ in range(njobs)]
    loads = [0] * njobs
    import heapq
    heap = [(0, b) for b in range(njobs)]
    for k in order:
        load, b = heapq.heappop(heap)
        buckets[b].append(k)
        heapq.heappush(heap, (load + 50 + len(lines[k]) + (len(lines[k]) // 64) ** 2, b))
    with ThreadPoolExecutor(max_workers=shards) as ex:
        outs = list(ex.map(lambda idxs: _run_shard(binary, [lines[k] for k in idxs], timeout, hang_token), buckets))
    res = [None] * len(lines)
    for idxs, o in zip(buckets, outs):
        assert len(o) == len(idxs), (len(o), len(idxs))
        for k, v in zip(idxs, o):
            res[k] = v
    return res


class Rng:
    """Deterministic PRNG (splitmix64) so that every case derives from VERIF_SEED alone."""

    def __init__(self, seed):
        self.s = (seed * 0x9E3779B97F4A7C15 + 0x1234567) & 0xFFFFFFFFFFFFFFFF

    def next(self):
        self.s = (self.s + 0x9E3779B97F4A7C15) & 0xFFFFFFFFFFFFFFFF
        z = self.s
        z = ((z ^ (z >> 30)) * 0xBF58476D1CE4E5B9) & 0xFFFFFFFFFFFFFFFF
        z = ((z ^ (z >> 27)) * 0x94D049BB133111EB) & 0xFFFFFFFFFFFFFFFF
        return z ^ (z >> 31)

    def below(self, n):
        return self.next() % n if n > 0 else 0

    def choice(self, seq):
        return seq[self.below(len(seq))]

    def chance(self, num, den):
        return self.below(den) < num

    def bytes(self, n):
        return bytes(self.below(256) for _ in range(n))

    def shuffle(self, l):
        for i in range(len(l) - 1, 0, -1):
            j = self.below(i + 1)
            l[i], l[j] = l[j], l[i]


def load_known():
    known, fixed = [], []
    path = os.path.join(VERIF, "known_findings.txt")
    if os.path.exists(path):
        for line in open(path):
            line = line.strip()
            if line.startswith("known:"):
                m = re.match(r"known:\s*property=(\S+)\s+key=(\S+)\s+(.*)", line)
                if m:
                    known.append({"property": m.group(1), "key": m.group(2), "what": m.group(3)})
            elif line.startswith("fixed:"):
                fixed.append(line)
    return known, fixed


def write_evidence(pid, tier, seed, coverage, wall, violations, assumptions):
    os.makedirs(os.path.join(VERIF, "evidence"), exist_ok=True)
    ev = {
        "property_id": pid, "tier": tier, "seed": seed, "level": "proof",
        "coverage": coverage, "assumptions": assumptions, "wall_s": round(wall, 2), "violations": violations,
    }
    path = os.path.join(VERIF, "evidence", pid + ".json")
    with open(path + ".tmp", "w") as f:
        json.dump(ev, f, indent=1, sort_keys=True)
    os.replace(path + ".tmp", path)
    return path


def write_replay(pid, name, payload):
    d = os.path.join(VERIF, ".work", pid, "replays")
    os.makedirs(d, exist_ok=True)
    path = os.path.join(d, name)
    with open(path, "w") as f:
        json.dump(payload, f, indent=1, sort_keys=True)
    return path
