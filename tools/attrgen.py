"""Attribute maps for the ATTRMAP case kind (TXT::try_from(HashMap) inside a packet), shared by C04, C15, C19."""
import dns

# keys that DNS-SD and its users give a meaning to (RFC 6763 section 6.7 and common practice), next to made-up ones
WELL_KNOWN_KEYS = ["txtvers", "TXTVERS", "txtvers1", "path", "Path", "note", "ty", "product", "rp", "pdl", "adminurl", "priority", "qtotal",
                   "u", "p", "id", "md", "fn", "ver", "version", "protovers", "papersize", "tls", "model", "sf", "ci", "c#", "s#", "ff"]


def strip_packets(out):
    return out.split(" | ")[0]


def case_of(m):
    toks = ["%x" % len(m)]
    for k, v in m.items():
        toks += [k.encode().hex() or "-"] + (["N"] if v is None else ["V", v.encode().hex() or "-"])
    return "ATTRMAP " + " ".join(toks)


def gen_map(rng, gen_text, keyless=False):
    m = {}
    for _ in range(rng.below(5)):
        r = rng.below(10)
        if r < 4:
            k = rng.choice(WELL_KNOWN_KEYS)
        else:
            k = gen_text(rng, 1 + rng.below(4)).replace("=", "")
        if keyless and rng.chance(1, 4):
            k = rng.choice(["", "=", "=x", "=" + k])
        if not k and not keyless:
            continue
        m[k] = rng.choice([None, None, "", "1", gen_text(rng, 1 + rng.below(6)), "x" * rng.choice([1, 200, 250])])
    return m


def packet_oracle(m, out):
    """framing of the two packet legs and the strings they carry (as a multiset: the order is the map's iteration order)"""
    parts = out.split(" | ")
    if len(parts) != 3:
        return None
    want = sorted(k.encode() + (b"" if v is None else b"=" + v.encode()) for k, v in m.items())
    msgs = []
    for leg, name in ((parts[1], "build_bytes_vec"), (parts[2], "build_bytes_vec_compressed")):
        if not leg.startswith("OK "):
            return "%s failed for a TXT made from the attribute map %r: %s" % (name, m, leg[:60])
        msg = bytes.fromhex(leg[3:])
        w = dns.walk(msg)
        if w is None or w["end"] != len(msg) or w["counts"] != (0, 1, 0, 0):
            return "%s of a packet holding TXT::try_from(%r) is not a well-framed message with one answer: %s" % (name, m, leg[3:160])
        # header 12, owner 01 74 00 (3), type class ttl (8), rdlength (2)
        rd = msg[25:]
        if int.from_bytes(msg[23:25], "big") != len(rd):
            return "%s: RDLENGTH %d but %d bytes of RDATA follow (attribute map %r)" % (name, int.from_bytes(msg[23:25], "big"), len(rd), m)
        got, i = [], 0
        while i < len(rd):
            got.append(rd[i + 1:i + 1 + rd[i]])
            i += 1 + rd[i]
        if want and sorted(got) != want:
            return "%s: the TXT record carries %r, the map's entries are %r" % (name, sorted(got), want)
        msgs.append(msg)
    if msgs[0] != msgs[1]:
        return "plain and compressed output differ although nothing is compressible (attribute map %r)" % (m,)
    return None
