#!/usr/bin/env python3
"""Regenerates /verif/MANIFEST.json from the table below (one entry per claimed property)."""
import json
import os

VERIF = os.path.dirname(os.path.dirname(os.path.abspath(__file__)))
ALL = ["C%02d" % i for i in range(1, 21)]

NOTE = ("Trusted: Coq 8.16.1 kernel (+ vm_compute for finite sweeps), no axioms (Print Assumptions audited on every run), "
        "the hand-written Gallina model, extraction with ExtrOcamlBasic only, the Rust harness built against /repo with "
        "--cfg simple_dns_verif, python generators/oracles. The model is tied to /repo by the correspondence check, "
        "which is differential testing except where stated exhaustive.")

CLAIMED = {
    "C18": dict(
        text="Kernel-checked theorems over the Gallina model for all 65536 codes (vm_compute sweeps lifted by forallb_forall) "
             "and the match predicates; the model is tied to /repo by an exhaustive correspondence run of all 65536 codes x 4 "
             "conversions and the full match table on every check.",
        technique="Coq proof (finite sweep lifted to forall) + exhaustive model/implementation correspondence",
        ref="DESIGN.md section 6, C18"),
    "C08": dict(
        text="Kernel-checked theorems: the masks/shifts of Header::parse, the eight header_buffer peeks, get_flags and the "
             "PacketFlag set/remove/has algebra agree with RFC 1035 4.1.1 bit positions (defined independently by testbit/div/mod) "
             "for all 65536 flag words, all 128x128 flag-set pairs and every named opcode x rcode x flag subset, with ids and "
             "counts symbolic; parse(write h) = h. Tied to /repo by an exhaustive correspondence run of the same finite domains.",
        technique="Coq proof (vm_compute sweeps lifted to forall + algebraic lemmas on big-endian fields) + exhaustive correspondence",
        ref="DESIGN.md section 6, C08"),
    "C06": dict(
        text="Kernel-checked theorems about the transliterated Name::parse loop for every buffer and offset: never panics, "
             "terminates (closed-form fuel never exhausted, by a measure), sound and complete w.r.t. an inductive RFC 1035 4.1.4 "
             "decoding relation (labels 1..63, expansion <= 255, in-place end after the first pointer), and every input without "
             "a derivation is an Err. Tied to /repo by bounded-exhaustive + structured NAME cases, with a python RFC decoder as oracle.",
        technique="Coq proof (induction on fuel / on the RFC derivation) + bounded-exhaustive model/implementation correspondence",
        ref="DESIGN.md section 6, C06"),
    "C01": dict(
        text="Kernel-checked theorems over the transliterated parsers, in which every Rust indexing / slicing / unwrap is a "
             "partial operation yielding Panic and every loop runs on explicit fuel: for EVERY byte string Packet::parse and the "
             "eight header peeks return Ok or Err (no panic site reachable, fuel never exhausted: termination by a measure, with "
             "the iteration bound |d|+640 per name); accepted messages hold at most (|d|-1)/5 entries and the up-front capacity "
             "is <= |d|/5. Tied to /repo by systematic malformation (every cut point, +-1 and every shorter RDLENGTH on every "
             "length-like field of every record type, short buffers, pointer graphs) run on model and implementation, with a "
             "watchdog and a counting allocator on the implementation side. PARTIAL: wall-clock time and real allocator "
             "behaviour are measured, not proved; the linear-time sentence is refuted across names (quadratic pointer chains, "
             "DESIGN F22) and is not claimed.",
        technique="Coq proof (safety lemmas per parser composed by induction; termination measure) + model/implementation correspondence on systematic malformations",
        ref="DESIGN.md section 6, C01"),
    "C10": dict(
        text="Kernel-checked theorems: the layout the transliterated code uses for each of the 40 types equals an RFC layout "
             "table written separately from the RFCs (and the codes equal the IANA table); for every type and every well-formed "
             "field-value tuple, parsing the declarative RFC encoding (big-endian fields, length-prefixed strings, uncompressed "
             "names, trailing data) returns exactly those values and stops at its end, len() equals the bytes written, and "
             "accepted RDATA satisfies the structural rules (LOC version 0, SVCB keys / NSEC windows strictly increasing, inner "
             "lengths inside the RDATA) - one induction over layouts covers all types. Tied to /repo by parsing reference-encoded "
             "records (independent python schema), serialising the same values, the repository's zonefile sample vectors and "
             "rule-breaking encodings. Known findings F25 (ISDN sa) and F30 (NSAP) are reported as KNOWN-FINDING.",
        technique="Coq proof (generic layout induction + table equality) + model/implementation correspondence against an independent reference encoder",
        ref="DESIGN.md section 6, C10"),
    "C02": dict(
        text="Kernel-checked theorem parse_packet (enc_packet p) = Ok p for EVERY well-formed packet p (any number of questions "
             "and records, every typed RDATA variant through one layout induction, unknown-type and empty RDATA, binary labels, "
             "OPT with extended response code, all classes / QTYPEs), built from element lemmas that hold at every offset of every "
             "buffer; each wf clause is shown necessary by a counter-example. Tied to /repo by building seeded packets through the "
             "public constructors, serialising and parsing them on model and implementation (bytes and parsed value compared), "
             "with field-wise equality to the description and an independent RFC reference encoder as oracles.",
        technique="Coq proof (element round-trip lemmas composed by induction over sections) + model/implementation correspondence",
        ref="DESIGN.md section 6, C02"),
    "C03": dict(
        text="Kernel-checked theorem: for EVERY well-formed packet (no bound on the message size) both serialisations succeed, "
             "Packet::parse of the compressed bytes equals Packet::parse of the plain bytes (and is the original packet), and the "
             "compressed form is never longer. Proved through an invariant on the suffix table (every entry is a non-empty suffix at "
             "an offset <= 16383 where the bytes written so far decode to it), shown preserved by the name writer, by every RDATA "
             "layout, by records (with RDLENGTH = bytes actually written), questions and sections; the pointer bytes are shown to "
             "carry the offset exactly when it fits 14 bits (sweep), which is what the pinned tree violated. Tied to /repo by "
             "packets with heavy suffix sharing, message sizes straddling 16384 and pointer chains, run compressed and plain on "
             "model and implementation.",
        technique="Coq proof (table invariant by induction over labels / layouts / sections; 14-bit pointer sweep) + model/implementation correspondence",
        ref="DESIGN.md section 6, C03"),
    "C07": dict(
        text="Kernel-checked theorems: under the table invariant the name writer emits a pointer only to a recorded entry, which is "
             "strictly backwards, <= 16383, message-relative and decodes (RFC 1035 4.1.4) to the intended remaining labels, and the "
             "emitted name expands to the intended name; the invariant holds at every stage of Packet::write_compressed_to for every "
             "well-formed packet; SRV, NAPTR, KX, RRSIG, NSEC, IPSECKEY, SVCB and HTTPS write their RDATA in full and leave the table "
             "untouched; a name written at an offset <= 16383 is written as a two-byte pointer at any later compressing position "
             "(the table only grows), and every name field of the RFC 1035 types is a compressing position. Tied to /repo by an "
             "independent python walker that locates every pointer through each type's schema, writers at non-zero origins and "
             "messages crossing 16 KiB.",
        technique="Coq proof (table invariant; per-type layout table) + model/implementation correspondence with an independent pointer walker",
        ref="DESIGN.md section 6, C07"),
    "C11": dict(
        text="Kernel-checked theorems: the image of Packet::parse - for EVERY accepted byte string the parsed packet lies in a class "
             "of well-formed packets (names 1..63-byte labels within 255 bytes, every typed RDATA well-formed for its layout "
             "including TXT with >= 1 string and the IPSECKEY gateway shape, unknown-type data 1..65535 bytes, EDNS data in "
             "range, OPT-typed records left in any section, counts < 65536) for which both serialisations succeed and parse back "
             "to the same packet, the compressed one being no longer. Two explicit side conditions remain: opcode and response "
             "code have a named variant (otherwise known finding F21, witnessed by a theorem; a reserved OPCODE is shown "
             "harmless), and every RDATA re-encodes within 65535 bytes (compressed names are written in full). A message with "
             "two OPT records is shown to survive. The whole quantifier (foreign compression layouts, unknown types, empty "
             "RDATA, OPT anywhere, every header word, accepted malformed inputs, messages up to 64 KiB) is also run by the REPARSE "
             "slice on model and implementation.",
        technique="Coq proof (image of the parser by induction over layouts / sections, composed with the C02 and C03 round trips) + model/implementation correspondence",
        ref="DESIGN.md section 6, C11"),
    "C05": dict(
        text="Kernel-checked theorems: if Packet::parse accepts d, an independent envelope reader (names, fixed 10-byte RR header, "
             "RDLENGTH skip) succeeds on d and the questions / records correspond one-to-one and in order to its entries (owner, "
             "type, class, cache-flush, TTL), each record's RDATA being what the RDATA parser yields on the message cut at the end "
             "of that entry's RDLENGTH (locality), the first OPT being the lifted one; hence messages whose counts or lengths run "
             "past the end are rejected; the cursor lemma shows a record always ends at start+10+RDLENGTH. Tied to /repo by "
             "messages with RDLENGTH larger / smaller than the typed content followed by further records, with a python walker and "
             "per-record re-parsing of RDLENGTH-delimited prefixes as oracles.",
        technique="Coq proof (cursor and locality lemmas, Forall2 over sections) + model/implementation correspondence with an independent envelope walker",
        ref="DESIGN.md section 6, C05"),
    "C17": dict(
        text="Kernel-checked theorems over the transliterated Name::new / LabelsIter / is_valid_label / Display / is_subdomain_of / "
             "without / is_link_local: Name::new s = Ok ls iff ls are the non-empty dot-separated pieces, each meeting an "
             "independently stated label grammar, and the name fits 255 bytes; display then re-create is the identity; subdomain, "
             "suffix removal and link-local are characterised as list equations - for all strings and label lists. Tied to /repo "
             "by bounded-exhaustive strings (<= 5/6 characters over a hostile alphabet), length boundaries and all name pairs over "
             "a 2-letter alphabet, with a python grammar as oracle.",
        technique="Coq proof (list induction) + bounded-exhaustive model/implementation correspondence",
        ref="DESIGN.md section 6, C17"),
    "C19": dict(
        text="Kernel-checked theorems over the transliterated TXT conversions (strings as UTF-8 bytes, from_utf8 modelled by a "
             "validator): split/join identity with pieces <= 254 bytes; attribute map -> TXT -> attributes() is the identity for "
             "every iteration order (absent vs empty preserved), first occurrence wins for duplicates; the ';' / '=' splitters cut "
             "only at those bytes; CharacterString::new refuses > 255 bytes. Tied to /repo by seeded Unicode strings with multi-byte "
             "characters at chunk boundaries and code points congruent to ';' / '=' modulo 256, wire strings and maps.",
        technique="Coq proof (list / fold induction) + model/implementation correspondence",
        ref="DESIGN.md section 6, C19"),
    "C09": dict(
        text="Kernel-checked theorems: the pseudo-record written for EDNS data equals, byte for byte, an RFC 6891 encoder written from "
             "the RFC (root owner, TYPE 41, CLASS = payload size, TTL = ext-rcode / version / flags, option triples) for every OPT value "
             "and named response code; the response code is split 4 + 8 bits and recombined on parsing (swept over all named codes x "
             "256 versions); the written message parses back to the same EDNS data (C02 theorem); the OPT record is lifted from any "
             "position of the additional section. Tied to /repo by serialise/parse runs and reference-encoded messages with the OPT at "
             "every index plus third-party dig-style vectors, with an independent envelope walker as oracle.",
        technique="Coq proof (equality with an RFC spec encoder; sweeps for the TTL bit layout) + model/implementation correspondence",
        ref="DESIGN.md section 6, C09"),
    "C12": dict(
        text="PARTIAL. Kernel-checked theorems cover the observers' decision logic in the model: parsing is total, parsed names are "
             "1..63-byte labels within 255 bytes, and the fallible text conversions return Ok or Err - Err exactly on invalid UTF-8. "
             "Display of labels, character-strings and names is modelled (String::from_utf8_lossy's maximal-subpart replacement) and "
             "proved, for every byte string, to yield well-formed UTF-8, to leave well-formed text unchanged and to be at most three "
             "times as long; the SHOW slice compares it with what Display writes. The derived Debug output is not modelled, so the "
             "'never panics' claim for Debug / clone / hash / eq rests on the OBSERVE slice: every public observer applied under "
             "catch_unwind to every part of parser-accepted packets built around invalid UTF-8, NUL, dots, backslashes, empty and "
             "maximal strings.",
        technique="Coq proof of the lossy renderer and of the conversion decision logic + model/implementation correspondence on Display output + implementation run of all observers under catch_unwind with model-predicted error counts",
        ref="DESIGN.md section 6, C12"),
    "C14": dict(
        text="PARTIAL. Kernel-checked theorems over the loop bodies of the responder, the discovery listener and the one-shot "
             "resolver's peeks written as functions of (store, datagram, clock), in which every indexing / unwrap is a Panic "
             "outcome and every loop runs on fuel: for EVERY datagram (any length, any bytes) and EVERY store (no invariant "
             "assumed) each handler returns normally; the listener leaves a store satisfying the store invariant; a reply that "
             "is produced is the compressed serialisation of the reply packet and parses back to it when the registered records "
             "are well-formed and the reply has < 65536 records per section (and then the build step cannot fail). Threads, the "
             "RwLock and sockets are outside the model; the same loop bodies are driven on the implementation through the "
             "cfg(simple_dns_verif) wrappers with empty / short / malformed / hostile datagrams against generated stores, every "
             "ingesting case through both the sync listener and the tokio listener's separate copy of the ingest code (outputs "
             "must be identical). A sampled subset runs on real sockets (SOCK cases): a running sync SimpleMdnsResponder is sent "
             "header-sized and shorter datagrams under every flag pattern, random, malformed and hostile messages, and a query "
             "whose reply exceeds a UDP datagram, over the multicast group, and must still answer a one-shot query afterwards "
             "(this slice found F31, repaired in e051091); where the environment has no multicast these cases report NOSOCKET "
             "and are not judged.",
        technique="Coq proof (composition of parser totality, store totality and the compressed round trip) + model/implementation correspondence on datagram pipelines + liveness probes of a real responder thread over multicast sockets",
        ref="DESIGN.md section 6, C14"),
    "C15": dict(
        text="Kernel-checked theorems: for ANY instance description within DNS limits (instance_ok: addresses and ports in range and "
             "distinct, distinct '='-free non-empty UTF-8 keys, entries <= 255 bytes, name fitting 255 bytes) and any header, the "
             "records into_records produces, sent in a compressed packet, are parsed by the discoverer to records all of which "
             "pass the ingest filter; a fresh discoverer (its own service PTR registered) that ingests them reports from "
             "get_known_services exactly the advertised instance (same name, addresses, ports and attribute map with absent / "
             "empty / non-empty values distinguished) at every instant before the TTL has elapsed and nothing afterwards; the "
             "ingest filter keeps exactly the records that are not the discoverer's own and are strictly below the watched "
             "service; after ANY sequence of announcements (repeats of an instance included) get_known_services equals an abstract "
             "view instance name -> (instance as first advertised, expiry of the last reception); unescape (escape s) = s for all "
             "byte strings; after ANY sequence of record batches for names directly below the service - re-announcements that "
             "change an instance's data included - the store equals an abstract view instance label -> association list "
             "(record, expiry) (an equal record takes the new expiry in place, a new one is appended) and get_known_services is "
             "from_records over the unexpired records of each entry. Tied to /repo by the DISC slice (model vs implementation, "
             "independent python oracle; re-announcements with supersets of addresses and ports; every case through both the "
             "sync and the tokio copy of the ingest code). Not modelled: the HashMap iteration order in which the text of two "
             "different TXT records under one owner is merged (the property does not speak about that case).",
        technique="Coq proof (composition of the attribute / TXT round trip, the compressed packet round trip and the filter characterisation) + model/implementation correspondence on announcement sequences",
        ref="DESIGN.md section 6, C15"),
    "C16": dict(
        text="Kernel-checked theorems: into_owned (modelled as a field-wise rebuild) is the identity and preserves the serialisation "
             "(short by nature); records that compare equal feed the hasher the same tokens (both use name, class, rdata); "
             "InstanceInformation's hash input is independent of the enumeration order of its sets (Permutation -> equal sorted "
             "lists). Tied to /repo by cloning / owning every part of parsed packets (printed form, ==, recorded hasher byte stream, "
             "bytes of a packet reassembled from the copies) and by instance values built with different insertion orders and set histories.",
        technique="Coq proof (Permutation / sorting uniqueness; structural identity) + implementation checks with a recording Hasher",
        ref="DESIGN.md section 6, C16"),
    "C13": dict(
        text="Kernel-checked theorems over a transliteration of the record store (with a model of the radix_trie calls used) and "
             "build_reply: the length-prefixed key of one name is a byte prefix of another's iff the names are in the label-suffix "
             "relation (and keys are injective); every store reachable by ANY operation sequence keeps records under their owner's "
             "key; each answer is a registered authoritative record under a question name that matches type and class, every "
             "registered record equal to a question name that matches is included, id / response flag / unicast / no-reply are as "
             "stated, additional records are registered address records of SRV targets. Tied to /repo by bounded-exhaustive small "
             "stores over a collision alphabet x all questions plus seeded operation sequences, with a python label-wise matcher.",
        technique="Coq proof (prefix-code lemma, store invariant by induction over operations, reply soundness/completeness) + model/implementation correspondence",
        ref="DESIGN.md section 6, C13"),
    "C20": dict(
        text="Kernel-checked theorems over the store model on an abstract clock: after ANY sequence of register / receive / remove / "
             "clear operations from any starting store, the state of every record equals a small per-record specification that "
             "looks only at the operations touching an equal record (equality = name, class, data, proved to be what rr_eqb "
             "decides): reception sets expiry to now + TTL (1 s with cache-flush) and restarts it, a locally registered record "
             "stays authoritative, remove / clear forget it; and an exact-name query under any filter shows the record exactly "
             "when that state passes the filter at that instant (authoritative never expires and is invisible to the cache-only "
             "filter; cached visible strictly before expiry; TTL 0 never). PARTIAL: the real clock (Instant, sleeps, scheduling) "
             "is outside the model and is exercised by the HISTB slice: hundreds of seeded histories executed with real sleeps "
             "on a half-second grid against the model and an independent python history spec.",
        technique="Coq proof (refinement of a per-record history specification by induction over operation sequences; filter semantics) + timed model/implementation correspondence",
        ref="DESIGN.md section 6, C20"),
    "C04": dict(
        text="Kernel-checked theorems: for every well-formed packet both the plain and the COMPRESSED serialisation are accepted by an "
             "independent envelope reader which finds exactly the counted questions and records in order (the OPT pseudo-record "
             "once), each RDLENGTH delimiting its RDATA (for the plain form ending at the last byte); len() equals the bytes "
             "written for every RDATA (separate code, proved equal); the imperative compressed record writer (placeholder / seek "
             "back / patch / seek forward) refines the functional writer on a growable seekable writer at any position over any "
             "pre-existing content (the pinned seek(End(0)) is refuted by a witness), and over a fixed-capacity writer it either "
             "does the same or fails with FailedToWrite, never a truncated record. PARTIAL: third-party Write / Seek "
             "implementations and the std writer plumbing are covered by the BUILDW slice (every writer kind / capacity / offset "
             "/ pre-filled content, python envelope walker, byte equality with the vector-returning entry points).",
        technique="Coq proof (walker over written output; list-level refinement of the seek/patch writer) + model/implementation correspondence over writer configurations",
        ref="DESIGN.md section 6, C04"),
}

PENDING_REASON = "not claimed yet: model, theorems and correspondence slice for this property are still being built (see DESIGN.md section 10)"


def main():
    checks = []
    for pid in ALL:
        if pid not in CLAIMED:
            continue
        c = CLAIMED[pid]
        checks.append({
            "property_id": pid,
            "quick_cmd": "./check %s --tier quick" % pid,
            "thorough_cmd": "./check %s --tier thorough" % pid,
            "evidence_file": "evidence/%s.json" % pid,
            "replay_cmd_template": "./check %s --replay {path}" % pid,
            "engine": "coq-model",
            "level_claimed": {"category": "proof", "text": c["text"], "design_ref": c["ref"]},
            "level_note": c.get("note", NOTE),
            "technique": c["technique"],
        })
    man = {
        "version": 1,
        "setup_cmd": "./setup.sh",
        "hooks": {
            "guard": "cfg(simple_dns_verif); the compression-table recorder additionally needs cfg(simple_dns_verif_table)",
            "enable": "rustflags --cfg simple_dns_verif --cfg simple_dns_verif_table, set in /verif/harness/.cargo/config.toml; the harness path-depends on /repo/simple-dns and /repo/simple-mdns so every check rebuilds from /repo's working tree",
            "baseline_off_cmd": "cd /repo && cargo nextest run --workspace --no-fail-fast --offline",
            "source_commits": ["3c6170d", "559c3ac", "d33084c", "a3f006f", "1b17e8b", "6af301b"],
            "add_only": True,
        },
        "engines": [
            {"name": "coq-model", "path": "coq", "serves_properties": sorted(CLAIMED),
             "kind_free_text": "Coq 8.16 development: executable Gallina model (theories/), lemma files, property theorems (props/Cxx.v), extraction to OCaml"},
            {"name": "correspondence", "path": "tools", "serves_properties": sorted(CLAIMED),
             "kind_free_text": "python orchestrator (./check): extracted OCaml model driver vs Rust harness on the same case lines, direct oracles, failing-input search, evidence"},
        ],
        "checks": checks,
        "not_applicable": [{"property_id": p, "reason": PENDING_REASON} for p in ALL if p not in CLAIMED],
        "notes": "Every check: make (full .vo) + proof audit of props/<id>.v + correspondence slice + direct oracle; see DESIGN.md.",
    }
    with open(os.path.join(VERIF, "MANIFEST.json"), "w") as f:
        json.dump(man, f, indent=1)
        f.write("\n")


if __name__ == "__main__":
    main()
