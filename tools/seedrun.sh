#!/bin/bash
# seedrun.sh <seed dir> <property ids...>: applies a seeded change to /repo, runs the given checks, undoes it.
SEED=$1; shift
cd /repo && git status --short | grep -q . && { echo "repo not clean"; exit 2; }
git -C /repo apply /verif/seeded/$SEED/patch.diff || exit 3
cd /verif
for p in "$@"; do
  out=$(./check $p --tier quick 2>&1)
  code=$?
  echo "== $SEED vs $p: exit=$code $(echo "$out" | grep -c '^VIOLATION') violation line(s)"
  echo "$out" | grep '^VIOLATION' | head -2
  echo "$out" | tail -1
  f=$(echo "$out" | grep '^VIOLATION' | head -1 | sed 's/.*replay=\([^ ]*\).*/\1/')
  [ -n "$f" ] && [ -f "$f" ] && python3 -c "
import json,sys
j=json.load(open('$f')); print('   replay:', (j.get('failure') or j.get('what') or '')[:300])"
done
git -C /repo checkout -- .
