"""C18: type/class codes map one-to-one, matching is exact. Exhaustive CODE sweep + MATCH table."""
IANA = {"A": 1, "NS": 2, "MD": 3, "MF": 4, "CNAME": 5, "SOA": 6, "MB": 7, "MG": 8, "MR": 9, "NULL": 10, "WKS": 11,
        "PTR": 12, "HINFO": 13, "MINFO": 14, "MX": 15, "TXT": 16, "RP": 17, "AFSDB": 18, "ISDN": 20,
        "RouteThrough": 21, "NSAP": 22, "NSAP_PTR": 23, "AAAA": 28, "LOC": 29, "SRV": 33, "NAPTR": 35, "KX": 36,
        "CERT": 37, "OPT": 41, "DS": 43, "IPSECKEY": 45, "RRSIG": 46, "NSEC": 47, "DNSKEY": 48, "DHCID": 49,
        "ZONEMD": 63, "SVCB": 64, "HTTPS": 65, "EUI48": 108, "EUI64": 109, "CAA": 257}
BYCODE = {v: k for k, v in IANA.items()}
CLASSES = {1: "IN", 2: "CS", 3: "CH", 4: "HS", 254: "NONE"}
QSPECIAL = {251: "IXFR", 252: "AXFR", 253: "MAILB", 254: "MAILA", 255: "ANY"}

SLICE = "CODE (all 65536 codes x TYPE/CLASS/QTYPE/QCLASS) + MATCH (record type x class x question type x question class)"
RULE = ("exhaustive: every 16-bit code through TYPE/CLASS/QTYPE/QCLASS conversion and back; every 16-bit record type code against the group question types, itself and its neighbours; MATCH over all supported "
        "type codes + unknown codes x all classes x all accepted question types (+ directly built TYPE(Unknown)) x all "
        "question classes. A case is non-trivial when the conversion succeeds or the match table row is distinct; "
        "distinct = distinct canonical output lines")
EXHAUSTIVE = True
CANNOT_EXHIBIT = []
ASSUMPTIONS = ["record types are observed through RData::Empty(TYPE::from(code)) for MATCH and through parsed records in the C10/C11 slices"]


def cases(rng, tier):
    out = []
    for c in range(65536):
        h = "%x" % c
        out.append("CODE TYPE " + h)
        out.append("CODE CLASS " + h)
        out.append("CODE QTYPE " + h)
        out.append("CODE QCLASS " + h)
    rts = sorted(BYCODE) + [0, 19, 99, 250, 251, 255, 256, 4242, 65535]
    qts = sorted(BYCODE) + sorted(QSPECIAL) + [0, 19, 99, 4242, 65535]
    for rt in rts:
        for rc in CLASSES:
            for qt in qts:
                for qc in list(CLASSES) + [255]:
                    out.append("MATCH %x %x %x %x" % (rt, rc, qt, qc))
    # every one of the 65536 record type codes against the question types that stand for groups (MAILB, MAILA, ANY, AXFR, IXFR),
    # against its own code and against its neighbour: a group test written with bit tricks must be right for every code,
    # not only for the supported ones
    for rt in range(65536):
        for qt in (253, 254, 255, 252, 251, rt, (rt + 1) & 0xFFFF, (rt + 64) & 0xFFFF, rt ^ 0x100):
            out.append("MATCH %x 1 %x 1" % (rt, qt))
        out.append("MATCHN %x 1 fd ff" % rt)
    # question types built directly as QTYPE::TYPE(TYPE::from(code)) - what `TYPE::from(code).into()` gives - for every code, the
    # meta codes 251..255 included: such a question asks for records of exactly that type code and for nothing else
    for qt in list(range(0, 300)) + [4242, 32768, 65280, 65535]:
        for rt in sorted(set(rts) | {qt, 251, 252, 253, 254, 255}):
            out.append("MATCHU %x 1 %x 1" % (rt, qt))
    # records held as RData::NULL(code, data), by construction
    for rt in rts:
        for qt in qts:
            out.append("MATCHN %x 1 %x ff" % (rt, qt))
    # records obtained by parsing: every supported code and some unknown ones, with RDLENGTH 0 (Empty) and with the
    # reference encoding of a value of that type (typed variant / NULL / unknown)
    import dns
    for rt in rts:
        for rd in ([b""] + ([REFRD[rt]] if rt in REFRD else [b"\x01\x02\x03"] if rt not in BYCODE or rt == 10 else [])):
            if rt == 41:
                continue
            wire = b"\x01a\x00" + rt.to_bytes(2, "big") + b"\x00\x01\x00\x00\x00\x05" + len(rd).to_bytes(2, "big") + rd
            for qt in [rt, 255, 253, 10, 1, 15] + (REFINTS.get(rt, []) if rd else []):
                out.append("RRMATCH %s %x 1" % (wire.hex(), qt))
    # an RRSIG (and the other types that carry a type code or a small integer in their RDATA) whose field equals each supported
    # type code in turn, asked for exactly that type: only the record's own type decides
    for tname in ("RRSIG", "CERT", "DS", "DNSKEY", "MX", "SRV", "NSEC", "CAA"):
        code = dns.SCHEMA[tname][0]
        sch = dns.SCHEMA[tname][1]
        for covered in sorted(BYCODE):
            if covered in (41, code):
                continue
            vals = []
            for k in sch:
                if isinstance(k, tuple) and k[0] == "be":
                    vals.append(("I", covered if k[1] >= 2 else covered & 0xFF))
                elif k == "cstr" or k == "rest":
                    vals.append(("B", b"x"))
                elif isinstance(k, tuple) and k[0] == "name":
                    vals.append(("N", [b"s"]))
                else:
                    vals.append(("L", [(covered >> 8, bytes([0x80 >> (covered & 7)]))] if k[1] == "win" else []))
            rd = dns.enc_rdata_ref(tname, vals)
            wire = b"\x01a\x00" + code.to_bytes(2, "big") + b"\x00\x01\x00\x00\x00\x05" + len(rd).to_bytes(2, "big") + rd
            out.append("RRMATCH %s %x 1" % (wire.hex(), covered))
    # parsed records: every (type code, class code) cross over the supported and the meta type codes and the class codes around
    # every assigned value (with and without the cache-flush bit): an unsupported class is an error whatever the type
    tcs = sorted(set(rts) | {249, 250, 251, 252, 253, 254, 255, 256, 257, 32768, 32769, 65280})
    ccs = sorted(set(range(0, 8)) | {253, 254, 255, 256, 257, 0x7FFF, 0x8000, 0x8001, 0x8002, 0x8003, 0x8004, 0x8005, 0x80FE, 0x80FF, 0xFFFE, 0xFFFF})
    for rt in tcs:
        if rt == 41:
            continue
        rd = REFRD.get(rt, b"")
        for cc in ccs:
            wire = b"\x01a\x00" + rt.to_bytes(2, "big") + cc.to_bytes(2, "big") + b"\x00\x00\x00\x05" + len(rd).to_bytes(2, "big") + rd
            out.append("RRMATCH %s %x %x" % (wire.hex(), rt if rt not in (252, 251) else 255, cc & 0x7FFF if (cc & 0x7FFF) in (1, 2, 3, 4, 254) else 255))
    return out


def _refrd():
    import dns
    from lib import Rng
    rng = Rng(12345)
    out = {}
    for t in dns.TYPED:
        vals = dns.gen_typed_vals(rng, t, None)
        out[dns.SCHEMA[t][0]] = dns.enc_rdata_ref(t, vals)
        # the 16-bit integers inside the RDATA (a covered type, a key tag, a preference ...): question types a matcher that looks
        # into the RDATA could confuse with the record's own type
        REFINTS[dns.SCHEMA[t][0]] = sorted({v[1] for v in vals if v[0] == "I" and 0 < v[1] < 65536})
    return out


REFINTS = {}


REFRD = _refrd()


def normalize(case, out):
    return out


def classify(case, out):
    return case.split()[0] + ("/" + case.split()[1] if case.startswith("CODE") else "") + ":" + out.split(" ")[0][:10].split("(")[0]


def nontrivial(case, out):
    return not out.startswith("ERR") and not out.startswith("Unknown(")


def tyname(c):
    return BYCODE.get(c, "Unknown(%x)" % c)


def oracle(case, out):
    t = case.split()
    if t[0] == "CODE":
        c = int(t[2], 16)
        if t[1] == "TYPE":
            exp = "%s %x %x" % (tyname(c), c, c)          # also through From<TYPE> for QTYPE and back to u16
        elif t[1] == "CLASS":
            exp = "OK %s %x" % (CLASSES[c], c) if c in CLASSES else "ERR InvalidClass %x" % c
        elif t[1] == "QCLASS":
            exp = ("OK ANY ff" if c == 255 else "OK %s %x" % (CLASSES[c], c) if c in CLASSES
                   else None)
            if exp is None:
                # unsupported question class: any Invalid* error naming the code is an error "rather than aliased"
                return None if out in ("ERR InvalidClass %x" % c, "ERR InvalidQClass %x" % c) else \
                    "QCLASS %x: expected an Invalid(Q)Class error, got %r" % (c, out)
        elif t[1] == "QTYPE":
            if c in QSPECIAL:
                exp = "OK %s %x" % (QSPECIAL[c], c)
            elif c in BYCODE:
                exp = "OK %s %x" % (BYCODE[c], c)
            else:
                exp = "ERR InvalidQType %x" % c
        else:
            return None
        return None if out == exp else "%s %x: expected %r, got %r" % (t[1], c, exp, out)
    if t[0] == "RRMATCH":
        d = bytes.fromhex(t[1])
        rt = int.from_bytes(d[3:5], "big")
        wc = int.from_bytes(d[5:7], "big") & 0x7FFF        # the top bit of the class field is the mDNS cache-flush bit
        if wc not in CLASSES:
            if out.startswith("OK"):
                return "a record of type %d whose class field holds the unsupported code %d was accepted (%r): aliased, not reported" % (rt, wc, out[:60])
            return None
        if not out.startswith("OK "):
            return "a well-formed record of type %d, class %d was rejected: %r" % (rt, wc, out)
        out = out[3:]
        t = ["MATCH", "%x" % rt, "%x" % wc, t[2], t[3]]
    if t[0] == "MATCHU":
        rt, rc, qt, qc = (int(x, 16) for x in t[1:5])
        o = out.split()
        if len(o) != 3:
            return "MATCHU: malformed output %r" % out
        if o[1] != ("1" if rt == qt else "0"):
            return "match_qtype(record of type code %d, QTYPE::TYPE(TYPE::from(%d))) = %s, expected %d" % (rt, qt, o[1], int(rt == qt))
        return None
    if t[0] == "MATCHN" and out.startswith("DIFF"):
        return "a record held as RData::NULL(code, data) reports another type / matches differently once its data is empty or it is copied: %s (%s)" % (out, case)
    if t[0] in ("MATCH", "MATCHN"):
        rt, rc, qt, qc = (int(x, 16) for x in t[1:5])
        rname = tyname(rt)
        if qt == 255:
            mt = True
        elif qt == 253:
            mt = rname in ("MB", "MG", "MR")
        elif qt in (251, 252, 254):
            mt = None  # outside the property's quantifier (IXFR/AXFR/MAILA): not judged by the oracle
        else:
            mt = (qt == rt)
        mc = (qc == 255) or (qc == rc)
        o = out.split()
        if len(o) != 3:
            return "MATCH: malformed output %r" % out
        if o[0] != rname:
            return "record built with type code %x reports type %s, expected %s" % (rt, o[0], rname)
        if mt is not None and o[1] != ("1" if mt else "0"):
            return "match_qtype(record %s, question %x) = %s, expected %s" % (rname, qt, o[1], int(mt))
        if o[2] != ("1" if mc else "0"):
            return "match_qclass(record class %x, question class %x) = %s, expected %s" % (rc, qc, o[2], int(mc))
    return None


def matches_known(key, case, out, failure):
    return False
